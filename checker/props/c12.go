package props

import (
	"fmt"
	"go/token"
	"go/types"
	"strings"

	"golang.org/x/tools/go/ssa"

	"verifchk/core"
)

func init() { Registry["C12"] = c12 }

const merkleVerify = "github.com/protolambda/zrnt/eth2/util/merkle.VerifyMerkleBranch"

// fromField: v derives from a load of a field with that name (any struct).
func fromField(v ssa.Value, field string) bool {
	return core.Derives(v, func(x ssa.Value) bool {
		_, f, ok := core.LoadedField(x)
		if ok && f == field {
			return true
		}
		if t, f2, _, ok2 := core.FieldRef(x); ok2 && f2 == field {
			_ = t
			return true
		}
		return false
	}, core.DeriveOpts{ThroughCalls: true})
}

// fromFieldPath: v derives from outer.inner (e.g. AttestedHeader.Slot).
func fromFieldPath(v ssa.Value, outer, inner string) bool {
	return core.Derives(v, func(x ssa.Value) bool {
		var addr ssa.Value
		if u, ok := x.(*ssa.UnOp); ok && u.Op == token.MUL {
			addr = u.X
		} else {
			addr = x
		}
		_, f, base, ok := core.FieldRef(addr)
		if !ok || f != inner {
			return false
		}
		return core.Derives(base, func(y ssa.Value) bool {
			_, f2, ok := core.LoadedField(y)
			return ok && f2 == outer
		}, core.DeriveOpts{})
	}, core.DeriveOpts{ThroughCalls: true})
}

func c12(c *Ctx) {
	p, r := c.P, c.R
	r.Technique = "path-sensitive must-pass-through (cut) checks on go/ssa with phi-resolved facts (boolean variables built from && / || / if-else) for every verification gate; constant table of Merkle depth/index per branch type; guarded-write analysis of every store into the light-client store"
	r.Explanation = "Decides: (R1) the generic verifier returns nil only after: participation != 0; signature slot > attested slot, attested slot >= finalized slot, current slot >= signature slot; the signature period equals the store period or (only when a next committee is stored) store period + 1; the update is relevant (attested slot > finalized slot, or it supplies a missing next committee for the store period); the finality and next-committee Merkle checks returned true whenever both the object and its branch are present, applied to (attested header, object, branch); the signature check returned (true, nil) for the attested header on keys selected by the SAME participation bits from the committee chosen by comparing the SIGNATURE-slot period with the store period (current on equality, next otherwise); (R2) constants: finality branch depth 6 index 41 against the attested state root with the finalized header's root as leaf, next committee 5/23, current committee 5/22, branch array lengths >= depth, signing domain type 0x07000000, two-thirds test bits*3 >= 512*2; (R3) every write to the store's finalized header / committees happens only under the majority fact, the finalized header additionally only under new slot > stored slot, the current committee is assigned only the stored next committee and only when the finalized period is store period + 1, the optimistic header only under new slot > stored optimistic slot or as the finalized-ahead clamp, and the only whole-store write (bootstrap) only under header root = trusted checkpoint and a valid current-committee branch. Not decided: BLS and hashing, update sequences across period boundaries as behaviour, Electra's deeper branches (updates of unknown container types are rejected - the safe direction)."
	r.Assumptions = []string{"zrnt merkle.VerifyMerkleBranch, HashTreeRoot and blsu.FastAggregateVerify are correct", "altair light-client constants (gindices 105, 55, 54; committee size 512)"}
	r.Floor("R1.verify-gates", 11)
	r.Floor("R1.signature-committee", 3)
	r.Floor("R2.merkle-constants", 9)
	r.Floor("R2.other-constants", 2)
	r.Floor("R3.store-writes", 6)

	bp := p.SSAPkg("beacon")
	var V, A *ssa.Function
	for _, fn := range p.ModuleFuncs() {
		if fn.Pkg != bp || fn.Signature.Recv() == nil {
			continue
		}
		hasGU := false
		for i := 0; i < fn.Signature.Params().Len(); i++ {
			if pt, ok := fn.Signature.Params().At(i).Type().(*types.Pointer); ok && core.TypeName(pt.Elem()) == "GenericUpdate" {
				hasGU = true
			}
		}
		if !hasGU {
			continue
		}
		rs := fn.Signature.Results()
		if rs.Len() == 1 && core.ErrResultIndex(fn.Signature) == 0 && len(core.Returns(fn)) > 4 {
			V = fn
		}
		if rs.Len() == 0 && len(storeFieldWrites(fn)) > 0 {
			A = fn
		}
	}
	if V == nil || A == nil {
		r.Fail("R1.verify-gates", "verifier/applier", "-", fmt.Sprintf("anchor-unresolved: generic verifier found=%v, generic applier found=%v", V != nil, A != nil))
		return
	}
	vname := core.FuncName(V)
	gate := func(key, okMsg, failMsg string, cut func(fs []core.Fact) bool) {
		w := core.AllSuccessPassPS(V, cut, nil)
		r.Check(w == nil, "R1.verify-gates", vname+" "+key, p.Pos(V.Pos()), okMsg, failMsg+": "+p.PathString(w))
	}
	any := core.AnyFact
	// (a) participation
	gate("participation", "nil only after participation != 0", "an update nobody signed can pass", any(func(f core.Fact) bool {
		return core.CmpFact(f, func(op token.Token, x, y ssa.Value) bool {
			k, isC := core.ConstInt(y)
			if !isC && fromField(x, "SyncCommitteeBits") && (op == token.GEQ || op == token.GTR) {
				// a configurable minimum: whatever it holds, it is at least one participant
				if rg := p.RangeOf(y, nil); rg.HasLo && ((op == token.GEQ && rg.Lo >= 1) || (op == token.GTR && rg.Lo >= 0)) {
					return true
				}
			}
			return isC && fromField(x, "SyncCommitteeBits") && ((op == token.NEQ && k == 0) || (op == token.GTR && k == 0) || (op == token.GEQ && k == 1))
		})
	}))
	// (b) time
	gate("sig-after-attested", "nil only after signature slot > attested slot", "an update whose signature slot is not after the attested slot can pass", any(func(f core.Fact) bool {
		return core.CmpFact(f, func(op token.Token, x, y ssa.Value) bool {
			return op == token.GTR && fromField(x, "SignatureSlot") && fromFieldPath(y, "AttestedHeader", "Slot") && !fromField(y, "SignatureSlot")
		})
	}))
	gate("attested-not-before-finalized", "nil only after attested slot >= finalized slot", "an update whose attested header is older than its finalized header can pass", any(func(f core.Fact) bool {
		return core.CmpFact(f, func(op token.Token, x, y ssa.Value) bool {
			return op == token.GEQ && fromFieldPath(x, "AttestedHeader", "Slot") && (fromFieldPath(y, "FinalizedHeader", "Slot") || isPhiWithZero(y))
		})
	}))
	gate("not-in-future", "nil only after current slot >= signature slot", "an update from the future can pass", any(func(f core.Fact) bool {
		return core.CmpFact(f, func(op token.Token, x, y ssa.Value) bool {
			isNow := core.Derives(x, func(v ssa.Value) bool {
				cc, ok := v.(*ssa.Call)
				if !ok {
					return false
				}
				id := core.CalleeID(cc)
				return strings.HasSuffix(id, "expectedCurrentSlot") || strings.HasSuffix(id, "TimeToSlot")
			}, core.DeriveOpts{})
			return op == token.GEQ && isNow && fromField(y, "SignatureSlot")
		})
	}))
	// (c) period
	isPeriodOf := func(v ssa.Value, field string) bool {
		cc, ok := v.(*ssa.Call)
		if !ok {
			return false
		}
		f := core.StaticCalleeFn(cc)
		if f == nil || !isPeriodFn(f) {
			return false
		}
		switch field {
		case "sig":
			return fromField(cc.Call.Args[0], "SignatureSlot")
		case "store":
			return fromFieldPath(cc.Call.Args[0], "FinalizedHeader", "Slot") && fromField(cc.Call.Args[0], "Store")
		case "attested":
			return fromFieldPath(cc.Call.Args[0], "AttestedHeader", "Slot")
		}
		return false
	}
	sigEqStore := func(f core.Fact) bool {
		return f.Op == token.EQL && ((isPeriodOf(f.X, "sig") && isPeriodOf(f.Y, "store")) || (isPeriodOf(f.Y, "sig") && isPeriodOf(f.X, "store")))
	}
	sigEqStorePlus1 := func(f core.Fact) bool {
		if f.Op != token.EQL {
			return false
		}
		for _, pr := range [][2]ssa.Value{{f.X, f.Y}, {f.Y, f.X}} {
			if bo, ok := pr[1].(*ssa.BinOp); ok && bo.Op == token.ADD && isPeriodOf(pr[0], "sig") && isPeriodOf(bo.X, "store") {
				if k, isC := core.ConstInt(bo.Y); isC && k == 1 {
					return true
				}
			}
		}
		return false
	}
	hasNext := func(f core.Fact) bool {
		return f.Op == token.NEQ && ((isStoreField(f.X, "NextSyncCommittee") && core.IsNilConst(f.Y)) || (isStoreField(f.Y, "NextSyncCommittee") && core.IsNilConst(f.X)))
	}
	gate("signature-period", "nil only when the signature period is the store period or the one after", "an update signed in an unrelated period can pass", any(func(f core.Fact) bool { return sigEqStore(f) || sigEqStorePlus1(f) }))
	gate("next-period-needs-next-committee", "the following period is admitted only when a next committee is stored", "an update signed in the following period can pass although no next committee is stored", any(func(f core.Fact) bool { return sigEqStore(f) || hasNext(f) }))
	// (d) relevance
	gate("relevance", "nil only for an update newer than the finalized header or supplying a missing next committee for the store period", "an irrelevant (old) update can pass", func(fs []core.Fact) bool {
		for _, f := range fs {
			if core.CmpFact(f, func(op token.Token, x, y ssa.Value) bool {
				return op == token.GTR && fromFieldPath(x, "AttestedHeader", "Slot") && fromFieldPath(y, "FinalizedHeader", "Slot") && fromField(y, "Store")
			}) {
				return true
			}
		}
		// the conjunction: store has none && update has one && attested period == store period
		a, b, cc := false, false, false
		for _, f := range fs {
			if f.Op == token.EQL && ((isStoreField(f.X, "NextSyncCommittee") && core.IsNilConst(f.Y)) || (isStoreField(f.Y, "NextSyncCommittee") && core.IsNilConst(f.X))) {
				a = true
			}
			if f.Op == token.NEQ && (core.IsNilConst(f.Y) || core.IsNilConst(f.X)) && (isUpdateField(f.X, "NextSyncCommittee") || isUpdateField(f.Y, "NextSyncCommittee")) {
				b = true
			}
			if f.Op == token.EQL && ((isPeriodOf(f.X, "attested") && isPeriodOf(f.Y, "store")) || (isPeriodOf(f.Y, "attested") && isPeriodOf(f.X, "store"))) {
				cc = true
			}
		}
		return a && b && cc
	})
	// (e)(f) merkle branches
	for _, br := range []struct{ key, obj, branch, callee string }{
		{"finality-branch", "FinalizedHeader", "FinalityBranch", "finality"},
		{"next-committee-branch", "NextSyncCommittee", "NextSyncCommitteeBranch", "nextcommittee"},
	} {
		br := br
		gate(br.key, "nil only if the "+br.obj+" proof held whenever object and branch are present", "an update with an invalid "+br.obj+" Merkle branch can pass", func(fs []core.Fact) bool {
			for _, f := range fs {
				// bypass: object or branch absent
				if f.Op == token.EQL && (core.IsNilConst(f.Y) || core.IsNilConst(f.X)) && (isUpdateField(f.X, br.obj) || isUpdateField(f.Y, br.obj) || isUpdateField(f.X, br.branch) || isUpdateField(f.Y, br.branch)) {
					return true
				}
				if f.Op == token.ILLEGAL && f.Truth {
					if cc, ok := f.V.(*ssa.Call); ok {
						cf := core.StaticCalleeFn(cc)
						if cf != nil && len(core.CallsTo(cf, merkleVerify)) > 0 && len(cc.Call.Args) >= 3 {
							a := cc.Call.Args
							n := len(a)
							if fromField(a[n-3], "AttestedHeader") && fromField(a[n-2], br.obj) && fromField(a[n-1], br.branch) {
								return true
							}
						}
					}
				}
			}
			return false
		})
	}
	// (g) signature
	var sigCall *ssa.Call
	core.Calls(V, func(ci ssa.CallInstruction) {
		cf := core.StaticCalleeFn(ci)
		if cf == nil || !core.InModule(cf) {
			return
		}
		rs := cf.Signature.Results()
		if rs.Len() == 2 && rs.At(0).Type().String() == "bool" && core.ErrResultIndex(cf.Signature) == 1 {
			sigCall, _ = ci.(*ssa.Call)
		}
	})
	if sigCall == nil {
		r.Fail("R1.verify-gates", vname+" signature", p.Pos(V.Pos()), "no signature verification call found")
	} else {
		gate("signature-valid", "nil only after the signature check returned true", "an update with an invalid aggregate signature can pass", any(func(f core.Fact) bool {
			return f.Op == token.ILLEGAL && f.Truth && core.ResultOf(f.V, sigCall, 0)
		}))
		g := core.ErrNilGate("sig", func(c2 *ssa.Call) bool { return c2 == sigCall })
		gate("signature-error", "nil only if the signature check reported no error", "a signature-check error can be ignored", g.Edge)
		// reachable in the callee: FastAggregateVerify result is what is returned
		scf := core.StaticCalleeFn(sigCall)
		okAgg := false
		for _, ret := range core.Returns(scf) {
			if cc, ok := ret.Results[0].(*ssa.Call); ok && strings.HasSuffix(core.CalleeID(cc), "FastAggregateVerify") {
				okAgg = true
			}
		}
		r.Check(okAgg, "R1.signature-committee", core.FuncName(scf)+" returns-aggregate-verify", p.Pos(scf.Pos()), "the verdict is FastAggregateVerify's", "the signature verdict is not the aggregate verification result")
		args := sigCall.Call.Args
		// attested header operand
		okHdr := false
		for _, a := range args {
			if fromField(a, "AttestedHeader") {
				okHdr = true
			}
		}
		r.Check(okHdr, "R1.signature-committee", vname+" signs-attested-header", p.Pos(sigCall.Pos()), "the signature is checked over the attested header", "the signature is checked over something other than the attested header")
		// keys = participating(committee, bits)
		var pkCall *ssa.Call
		for _, a := range args {
			if cc, ok := a.(*ssa.Call); ok && core.StaticCalleeFn(cc) != nil && core.InModule(core.StaticCalleeFn(cc)) {
				pkCall = cc
			}
		}
		if pkCall == nil {
			r.Fail("R1.signature-committee", vname+" participating-keys", p.Pos(sigCall.Pos()), "the keys are not selected by a participation filter")
		} else {
			pa := pkCall.Call.Args
			// operands by type (a size hint or a logger may be passed along)
			var bitsArg, commArg ssa.Value
			for _, a := range pa {
				t := a.Type()
				if pt, isP := t.Underlying().(*types.Pointer); isP {
					t = pt.Elem()
				}
				switch core.TypeName(t) {
				case "SyncCommitteeBits":
					bitsArg = a
				case "SyncCommittee":
					commArg = a
				}
			}
			if bitsArg == nil {
				bitsArg = pa[len(pa)-1]
			}
			if commArg == nil {
				commArg = pa[len(pa)-2]
			}
			okBits := fromField(bitsArg, "SyncCommitteeBits")
			r.Check(okBits, "R1.signature-committee", vname+" keys-by-same-bits", p.Pos(pkCall.Pos()), "keys are selected by the update's participation bits", "the keys are selected by a bit vector other than the update's participation bits")
			// committee = phi(current when sig period == store period, next otherwise)
			comm := commArg
			var ph *ssa.Phi
			core.Derives(comm, func(v ssa.Value) bool {
				if x, ok := v.(*ssa.Phi); ok && ph == nil {
					ph = x
				}
				return false
			}, core.DeriveOpts{})
			okSel, why := false, "the committee is not selected by the period comparison"
			if ph != nil && len(ph.Edges) == 2 {
				okSel = true
				for i, e := range ph.Edges {
					pred := ph.Block().Preds[i]
					var eq *bool
					fs := append(core.DomFacts(pred), edgeFactsPub(pred, ph.Block())...)
					for _, f := range fs {
						if sigEqStore(f) {
							t := true
							eq = &t
						}
						if f.Op == token.NEQ && ((isPeriodOf(f.X, "sig") && isPeriodOf(f.Y, "store")) || (isPeriodOf(f.Y, "sig") && isPeriodOf(f.X, "store"))) {
							t := false
							eq = &t
						}
					}
					if eq == nil {
						okSel = false
						why = "the committee choice does not depend on comparing the SIGNATURE-slot period with the store period (a sync aggregate is signed by the committee of the signature slot's period)"
						continue
					}
					want := "NextSyncCommittee"
					if *eq {
						want = "CurrentSyncCommittee"
					}
					if !isStoreField(e, want) {
						okSel = false
						why = fmt.Sprintf("when signature period %s store period the committee used is not Store.%s", map[bool]string{true: "==", false: "!="}[*eq], want)
					}
				}
			}
			r.Check(okSel, "R1.signature-committee", vname+" committee-by-signature-period", p.Pos(pkCall.Pos()), "current committee when the signature period equals the store period, stored next committee otherwise", why)
		}
	}

	// ---- R2 constants
	want := map[string][2]int64{"FinalizedRootProofBranch": {6, 41}, "SyncCommitteeProofBranch": {5, 23}, "CurrentSyncCommitteeBranch": {5, 22}}
	leafOf := map[string]string{"FinalizedRootProofBranch": "header", "SyncCommitteeProofBranch": "committee", "CurrentSyncCommitteeBranch": "committee"}
	seenBranch := map[string]bool{}
	for _, fn := range p.ModuleFuncs() {
		if fn.Pkg != bp {
			continue
		}
		for _, ci := range core.CallsTo(fn, merkleVerify) {
			a := ci.Common().Args
			// branch type: the array sliced
			bt := ""
			var blen int64 = -1
			core.Derives(a[1], func(v ssa.Value) bool {
				t := v.Type()
				if pt, ok := t.(*types.Pointer); ok {
					t = pt.Elem()
				}
				if n := core.TypeName(t); n != "" && bt == "" {
					if at, ok := t.Underlying().(*types.Array); ok {
						bt, blen = n, at.Len()
					}
				}
				return false
			}, core.DeriveOpts{})
			name := core.FuncName(fn)
			w, known := want[bt]
			if !known {
				r.Note("R2.merkle-constants", name+" other-merkle-check", p.Pos(ci.Pos()), "Merkle check on a branch that is not one of the three light-client branch types (not part of C12)")
				continue
			}
			seenBranch[bt] = true
			d, c1 := core.ConstInt(a[2])
			ix, c2 := core.ConstInt(a[3])
			r.Check(c1 && c2 && d == w[0] && ix == w[1], "R2.merkle-constants", name+" depth/index", p.Pos(ci.Pos()),
				fmt.Sprintf("%s verified at depth %d index %d", bt, d, ix), fmt.Sprintf("%s is verified at depth %d index %d, the light-client spec fixes depth %d index %d", bt, d, ix, w[0], w[1]))
			r.Check(blen >= d, "R2.merkle-constants", name+" branch-length", p.Pos(ci.Pos()), fmt.Sprintf("branch array length %d >= depth", blen), fmt.Sprintf("branch array has %d nodes but depth %d is verified (index out of range)", blen, d))
			okRoot := fromField(a[4], "StateRoot")
			r.Check(okRoot, "R2.merkle-constants", name+" root", p.Pos(ci.Pos()), "verified against the attested header's state root", "the Merkle branch is not verified against the attested state root")
			okLeaf := core.Derives(a[0], func(v ssa.Value) bool {
				cc, ok := v.(*ssa.Call)
				if !ok || !strings.HasSuffix(core.CalleeID(cc), ".HashTreeRoot") {
					return false
				}
				rt := core.TypeName(cc.Call.Args[0].Type())
				if leafOf[bt] == "header" {
					return rt == "BeaconBlockHeader"
				}
				return rt == "SyncCommittee"
			}, core.DeriveOpts{})
			r.Check(okLeaf, "R2.merkle-constants", name+" leaf", p.Pos(ci.Pos()), "leaf = hash tree root of the proven "+leafOf[bt], "the leaf is not the hash tree root of the proven "+leafOf[bt])
		}
	}
	for bt := range want {
		if !seenBranch[bt] {
			r.Fail("R2.merkle-constants", bt+" check", "-", "no Merkle verification of a "+bt+" found")
		}
	}
	// domain type, two-thirds
	{
		okDom := false
		for _, fn := range p.ModuleFuncs() {
			if fn.Pkg != bp {
				continue
			}
			core.Calls(fn, func(ci ssa.CallInstruction) {
				// the dependency's own named constant for the same four bytes
				if strings.HasSuffix(core.CalleeID(ci), "zrnt/eth2/beacon/common.ComputeDomain") && len(ci.Common().Args) > 0 {
					if core.Derives(ci.Common().Args[0], func(v ssa.Value) bool {
						g, isG := v.(*ssa.Global)
						return isG && g.Name() == "DOMAIN_SYNC_COMMITTEE" && g.Pkg != nil && strings.HasSuffix(g.Pkg.Pkg.Path(), "zrnt/eth2/beacon/common")
					}, core.DeriveOpts{}) {
						okDom = true
					}
				}
				if strings.HasSuffix(core.CalleeID(ci), "hexutil.MustDecode") {
					if cst, ok := ci.Common().Args[0].(*ssa.Const); ok && strings.Trim(cst.Value.ExactString(), "\"") == "0x07000000" {
						if len(core.CallsTo(fn, "github.com/protolambda/zrnt/eth2/beacon/common.ComputeDomain")) > 0 {
							okDom = true
						}
					}
				}
			})
		}
		r.Check(okDom, "R2.other-constants", "sync-committee domain type", "-", "DOMAIN_SYNC_COMMITTEE = 0x07000000", "the signing domain type is not 0x07000000")
	}

	// ---- R3 store writes
	aname := core.FuncName(A)
	bitsVal := func(v ssa.Value) bool { return fromField(v, "SyncCommitteeBits") }
	majority := func(f core.Fact) bool {
		return core.CmpFact(f, func(op token.Token, x, y ssa.Value) bool {
			bo, ok := x.(*ssa.BinOp)
			if !ok || bo.Op != token.MUL || op != token.GEQ {
				return false
			}
			m, c1 := core.ConstInt(bo.Y)
			k, c2 := core.ConstInt(y)
			// bits*m >= k  <=>  bits >= ceil(k/m); two thirds of 512 = 341.33 -> 342
			return c1 && c2 && bitsVal(bo.X) && m > 0 && (k+m-1)/m >= 342
		})
	}
	newerFinal := func(f core.Fact) bool {
		return core.CmpFact(f, func(op token.Token, x, y ssa.Value) bool {
			return op == token.GTR && (fromFieldPath(x, "FinalizedHeader", "Slot") || isPhiWithZero(x)) && !fromField(x, "Store") && fromFieldPath(y, "FinalizedHeader", "Slot") && fromField(y, "Store")
		})
	}
	nWrites := 0
	for _, fn := range p.ModuleFuncs() {
		if fn.Pkg != bp {
			continue
		}
		for _, w := range storeFieldWrites(fn) {
			nWrites++
			key := fmt.Sprintf("%s writes Store.%s", core.FuncName(fn), w.field)
			pos := p.Pos(w.st.Pos())
			if fn != A {
				if w.field == "*" {
					// whole-store assignment: bootstrap
					hdr := core.AnyFact(func(f core.Fact) bool {
						if f.Op != token.EQL {
							return false
						}
						a := core.Derives(f.X, func(v ssa.Value) bool { _, fl, ok := core.LoadedField(v); return ok && fl == "InitialCheckpoint" }, core.DeriveOpts{ThroughCalls: true}) ||
							core.Derives(f.Y, func(v ssa.Value) bool { _, fl, ok := core.LoadedField(v); return ok && fl == "InitialCheckpoint" }, core.DeriveOpts{ThroughCalls: true})
						b := core.Derives(f.X, func(v ssa.Value) bool {
							cc, ok := v.(*ssa.Call)
							return ok && strings.HasSuffix(core.CalleeID(cc), ".HashTreeRoot")
						}, core.DeriveOpts{ThroughCalls: true}) || core.Derives(f.Y, func(v ssa.Value) bool {
							cc, ok := v.(*ssa.Call)
							return ok && strings.HasSuffix(core.CalleeID(cc), ".HashTreeRoot")
						}, core.DeriveOpts{ThroughCalls: true})
						return a && b
					})
					w1 := core.InstrGuardedPS(w.st, hdr, nil)
					r.Check(w1 == nil, "R3.store-writes", key+" header-is-checkpoint", pos, "the store is initialised only when the bootstrap header's root equals the trusted checkpoint", "the store can be initialised from a bootstrap whose header is not the trusted checkpoint: "+p.PathString(w1))
					comm := core.AnyFact(func(f core.Fact) bool {
						if f.Op != token.ILLEGAL || !f.Truth {
							return false
						}
						cc, ok := f.V.(*ssa.Call)
						if !ok {
							return false
						}
						cf := core.StaticCalleeFn(cc)
						return cf != nil && len(core.CallsTo(cf, merkleVerify)) > 0
					})
					w2 := core.InstrGuardedPS(w.st, comm, nil)
					r.Check(w2 == nil, "R3.store-writes", key+" committee-branch-valid", pos, "and its current sync committee branch verified", "the store can be initialised with a committee whose Merkle branch did not verify: "+p.PathString(w2))
					continue
				}
				r.Fail("R3.store-writes", key, pos, "the light-client store is written outside the generic applier and bootstrap")
				continue
			}
			switch w.field {
			case "FinalizedHeader":
				w1 := core.InstrGuardedPS(w.st, any(majority), nil)
				r.Check(w1 == nil, "R3.store-writes", key+" majority", pos, "only under participation*3 >= 512*2", "the finalized header can change without two-thirds participation: "+p.PathString(w1))
				w2 := core.InstrGuardedPS(w.st, any(newerFinal), nil)
				r.Check(w2 == nil, "R3.store-writes", key+" monotone", pos, "only under new finalized slot > stored finalized slot", "the finalized header can move backwards or sideways: "+p.PathString(w2))
				r.Check(fromField(w.st.Val, "FinalizedHeader") && !fromField(w.st.Val, "Store"), "R3.store-writes", key+" value", pos, "assigned the update's finalized header", "the finalized header is assigned something other than the update's finalized header")
			case "CurrentSyncCommittee", "NextSyncCommittee":
				w1 := core.InstrGuardedPS(w.st, any(majority), nil)
				r.Check(w1 == nil, "R3.store-writes", key+" majority", pos, "only under participation*3 >= 512*2", "a committee can change without two-thirds participation: "+p.PathString(w1))
				if w.field == "CurrentSyncCommittee" {
					r.Check(isStoreField(w.st.Val, "NextSyncCommittee"), "R3.store-writes", key+" rotation-value", pos, "the current committee becomes the stored next committee", "the current committee is replaced by something other than the stored next committee")
					rotFact := func(f core.Fact) bool {
						if f.Op != token.EQL {
							return false
						}
						for _, pr := range [][2]ssa.Value{{f.X, f.Y}, {f.Y, f.X}} {
							if bo, ok := pr[1].(*ssa.BinOp); ok && bo.Op == token.ADD && isPeriodOf(bo.X, "store") {
								if k, isC := core.ConstInt(bo.Y); isC && k == 1 {
									if cc, ok := pr[0].(*ssa.Call); ok && core.StaticCalleeFn(cc) != nil && isPeriodFn(core.StaticCalleeFn(cc)) {
										return true
									}
								}
							}
						}
						return false
					}
					rot := any(rotFact)
					w2 := core.InstrGuardedPS(w.st, rot, nil)
					// rotation-whenever: the branch conditions that decide the rotation, beyond those that also decide the
					// finalized-header write, are only 'a next committee is stored' and 'finalized period == store period + 1'
					// (an update that advances the period without rotating leaves the store verifying with the wrong committee)
					var finBlocks []*ssa.BasicBlock
					for _, o := range storeFieldWrites(fn) {
						if o.field == "FinalizedHeader" {
							finBlocks = append(finBlocks, o.st.Block())
						}
					}
					isNil := func(v ssa.Value) bool { k, ok := v.(*ssa.Const); return ok && k.IsNil() }
					var extra []string
					for d := w.st.Block().Idom(); d != nil; d = d.Idom() {
						ifi, isIf := d.Instrs[len(d.Instrs)-1].(*ssa.If)
						if !isIf {
							continue
						}
						ctl := func(t *ssa.BasicBlock) bool {
							for _, sc := range d.Succs {
								if len(sc.Preds) == 1 && sc.Dominates(t) {
									return true
								}
							}
							return false
						}
						if !ctl(w.st.Block()) {
							continue
						}
						allowed := false
						if bo, isB := ifi.Cond.(*ssa.BinOp); isB && (bo.Op == token.EQL || bo.Op == token.NEQ) {
							if (isNil(bo.X) && isStoreField(bo.Y, "NextSyncCommittee")) || (isNil(bo.Y) && isStoreField(bo.X, "NextSyncCommittee")) {
								allowed = true
							}
							if rotFact(core.Fact{Op: token.EQL, X: bo.X, Y: bo.Y}) {
								allowed = true
							}
						}
						for _, fb := range finBlocks {
							if ctl(fb) {
								allowed = true
							}
						}
						if !allowed {
							extra = append(extra, p.Pos(ifi.Cond.Pos()))
						}
					}
					r.Check(len(extra) == 0, "R3.store-writes", key+" rotation-whenever", pos, "the rotation depends only on a stored next committee and on the finalized period being store period + 1", "the rotation also depends on another condition ("+strings.Join(extra, ", ")+"): an update can move the store into the next period without rotating the committees, after which signatures are checked against the wrong period's committee")
					r.Check(w2 == nil, "R3.store-writes", key+" rotation-period", pos, "rotation only when the finalized period is store period + 1", "the committees can rotate without the finalized header entering the next period: "+p.PathString(w2))
				} else {
					r.Check(isUpdateField(w.st.Val, "NextSyncCommittee"), "R3.store-writes", key+" value", pos, "assigned the update's next committee", "the next committee is assigned something other than the update's")
				}
			case "OptimisticHeader":
				if fromField(w.st.Val, "Store") {
					// clamp: optimistic := finalized when finalized is ahead
					cl := any(func(f core.Fact) bool {
						return core.CmpFact(f, func(op token.Token, x, y ssa.Value) bool {
							return op == token.GTR && fromFieldPath(x, "FinalizedHeader", "Slot") && fromFieldPath(y, "OptimisticHeader", "Slot")
						})
					})
					w1 := core.InstrGuardedPS(w.st, cl, nil)
					r.Check(w1 == nil && isStoreField(w.st.Val, "FinalizedHeader"), "R3.store-writes", key+" clamp", pos, "clamped to the finalized header only when that is ahead", "the optimistic header can be reset to the finalized header although it is ahead of it: "+p.PathString(w1))
				} else {
					nw := any(func(f core.Fact) bool {
						return core.CmpFact(f, func(op token.Token, x, y ssa.Value) bool {
							return op == token.GTR && fromFieldPath(x, "AttestedHeader", "Slot") && fromFieldPath(y, "OptimisticHeader", "Slot") && fromField(y, "Store")
						})
					})
					w1 := core.InstrGuardedPS(w.st, nw, nil)
					r.Check(w1 == nil, "R3.store-writes", key+" monotone", pos, "only under attested slot > stored optimistic slot", "the optimistic header can move backwards: "+p.PathString(w1))
					r.Check(fromField(w.st.Val, "AttestedHeader"), "R3.store-writes", key+" value", pos, "assigned the update's attested header", "the optimistic header is assigned something other than the attested header")
				}
			}
		}
	}
	r.Count("store_writes", nWrites)
	_ = aname
	// two-thirds constant: present in A
	{
		found := false
		for _, b := range A.Blocks {
			for i := range b.Succs {
				for _, f := range core.EdgeFacts(b, i) {
					if majority(f) {
						found = true
					}
				}
			}
		}
		for _, b := range A.Blocks {
			for _, in := range b.Instrs {
				if bo, ok := in.(*ssa.BinOp); ok && bo.Op == token.GEQ {
					if majority(core.Fact{Op: token.GEQ, X: bo.X, Y: bo.Y}) {
						found = true
					}
				}
			}
		}
		r.Check(found, "R2.other-constants", aname+" two-thirds", p.Pos(A.Pos()), "majority = bits*3 >= 512*2 (>= 342 of 512)", "the two-thirds participation test is missing or weaker than 342 of 512")
	}
	errorsExamined(c, "R4.errors-examined", "light client", []string{"beacon"}, "(*beacon.ConsensusLightClient).Verify", "(*beacon.ConsensusLightClient).Apply", "(*beacon.ConsensusLightClient).ProcessUpdate", "beacon.VerifySyncCommitteeSignature", "beacon.Is")
}

type storeWrite struct {
	st    *ssa.Store
	field string
}

// storeFieldWrites: stores into c.Store.<field> (LightClientStore) or of the whole struct.
func storeFieldWrites(fn *ssa.Function) []storeWrite {
	var out []storeWrite
	for _, b := range fn.Blocks {
		for _, in := range b.Instrs {
			st, ok := in.(*ssa.Store)
			if !ok {
				continue
			}
			if t, f, base, ok := core.FieldRef(st.Addr); ok && t == "LightClientStore" {
				if _, bf, _, ok := core.FieldRef(base); ok && bf == "Store" {
					switch f {
					case "FinalizedHeader", "OptimisticHeader", "CurrentSyncCommittee", "NextSyncCommittee":
						out = append(out, storeWrite{st, f})
					}
				}
				continue
			}
			if _, f, _, ok := core.FieldRef(st.Addr); ok && f == "Store" {
				if pt, ok := st.Addr.Type().(*types.Pointer); ok && core.TypeName(pt.Elem()) == "LightClientStore" {
					out = append(out, storeWrite{st, "*"})
				}
			}
		}
	}
	return out
}

func isStoreField(v ssa.Value, field string) bool {
	u, ok := v.(*ssa.UnOp)
	if !ok || u.Op != token.MUL {
		return false
	}
	t, f, base, ok := core.FieldRef(u.X)
	if !ok || t != "LightClientStore" || f != field {
		return false
	}
	_, bf, _, ok := core.FieldRef(base)
	return ok && bf == "Store"
}

func isUpdateField(v ssa.Value, field string) bool {
	u, ok := v.(*ssa.UnOp)
	if !ok || u.Op != token.MUL {
		return false
	}
	t, f, _, ok := core.FieldRef(u.X)
	return ok && t == "GenericUpdate" && f == field
}

func isPhiWithZero(v ssa.Value) bool {
	ph, ok := v.(*ssa.Phi)
	if !ok {
		return false
	}
	z, fld := false, false
	for _, e := range ph.Edges {
		if k, isC := core.ConstInt(e); isC && k == 0 {
			z = true
		} else if fromFieldPath(e, "FinalizedHeader", "Slot") {
			fld = true
		}
	}
	return z && fld
}

// isPeriodFn: slot -> sync committee period: divides by 32 and by 256 (or by 8192).
func isPeriodFn(f *ssa.Function) bool {
	if f.Signature.Params().Len() != 1 || f.Signature.Results().Len() != 1 {
		return false
	}
	prod := int64(1)
	for _, b := range f.Blocks {
		for _, in := range b.Instrs {
			if bo, ok := in.(*ssa.BinOp); ok && bo.Op == token.QUO {
				if k, isC := core.ConstInt(bo.Y); isC {
					prod *= k
				}
			}
		}
	}
	return prod == 8192
}
