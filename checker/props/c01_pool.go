package props

import (
	"go/ast"
	"go/token"
	"go/types"
	"strings"

	"golang.org/x/tools/go/ssa"

	"verifchk/core"
)

// poolInfo: what a sync.Pool struct field hands out, established from the code: its New function
// returns a pointer to a fresh slice of constant length, and everything put back is a value that
// came out of the same pool in the same function and was only read through in between. Then
// pool.Get().(T) cannot fail and the slice behind the pointer has that length.
type poolInfo struct {
	elem types.Type // the asserted type (*[]byte)
	n    int64      // length of the slice behind the pointer
}

func poolOf(p *core.Prog, poolAddr ssa.Value) *poolInfo {
	t, f, _, ok := core.FieldRef(poolAddr)
	if !ok {
		return nil
	}
	var info *poolInfo
	okAll := true
	// the pool literal is built in a local and copied into the field
	locals := map[ssa.Value]bool{}
	for _, w := range p.FieldWrites(t, f) {
		if ld, isLd := w.Val.(*ssa.UnOp); isLd && ld.Op == token.MUL {
			if al, isAl := ld.X.(*ssa.Alloc); isAl {
				locals[al] = true
				continue
			}
		}
		okAll = false // the pool itself is replaced by something else
	}
	for _, fn := range p.ModuleFuncs() {
		for _, b := range fn.Blocks {
			for _, in := range b.Instrs {
				switch x := in.(type) {
				case *ssa.Store:
					// pool.New = func() any { out := make([]byte, K); return &out }
					nt, nf, base, isF := core.FieldRef(x.Addr)
					if !isF || nt != "Pool" || nf != "New" {
						continue
					}
					if bt, bf, _, isB := core.FieldRef(base); (!isB || bt != t || bf != f) && !locals[base] {
						continue
					}
					var newFn *ssa.Function
					switch y := core.Unwrap(x.Val).(type) {
					case *ssa.Function:
						newFn = y
					case *ssa.MakeClosure:
						newFn, _ = y.Fn.(*ssa.Function)
					}
					if newFn == nil {
						okAll = false
						continue
					}
					for _, ret := range core.Returns(newFn) {
						mi, isMi := ret.Results[0].(*ssa.MakeInterface)
						if !isMi {
							okAll = false
							continue
						}
						al, isAl := mi.X.(*ssa.Alloc)
						if !isAl {
							okAll = false
							continue
						}
						var ln int64 = -1
						for _, rf := range *al.Referrers() {
							if st, isSt := rf.(*ssa.Store); isSt && st.Addr == ssa.Value(al) {
								if ms, isMs := st.Val.(*ssa.MakeSlice); isMs {
									if k, isK := core.ConstInt(ms.Len); isK {
										ln = k
									}
								} else if sl, isSl := st.Val.(*ssa.Slice); isSl {
									// make([]byte, K) with constant K lowers to a slice of a fresh array
									if pt, isP := sl.X.Type().Underlying().(*types.Pointer); isP && sl.Low == nil {
										if at, isA := pt.Elem().Underlying().(*types.Array); isA {
											if sl.High == nil {
												ln = at.Len()
											} else if k, isK := core.ConstInt(sl.High); isK {
												ln = k
											}
										}
									}
								}
							}
						}
						if ln < 0 {
							okAll = false
							continue
						}
						if info == nil {
							info = &poolInfo{elem: mi.X.Type(), n: ln}
						} else if !types.Identical(info.elem, mi.X.Type()) || info.n != ln {
							okAll = false
						}
					}
				case ssa.CallInstruction:
					if core.CalleeID(x) != "sync.(*Pool).Put" || len(x.Common().Args) != 2 {
						continue
					}
					if pt, pf, _, isF := core.FieldRef(x.Common().Args[0]); !isF || pt != t || pf != f {
						continue
					}
					// what is put back came out of this pool here and was only read through
					mi, isMi := x.Common().Args[1].(*ssa.MakeInterface)
					if !isMi {
						okAll = false
						continue
					}
					ta, isTa := mi.X.(*ssa.TypeAssert)
					if !isTa {
						okAll = false
						continue
					}
					gc, isC := ta.X.(*ssa.Call)
					if !isC || core.CalleeID(gc) != "sync.(*Pool).Get" {
						okAll = false
						continue
					}
					if gt, gf, _, isF := core.FieldRef(gc.Call.Args[0]); !isF || gt != t || gf != f {
						okAll = false
						continue
					}
					for _, rf := range *ta.Referrers() {
						switch y := rf.(type) {
						case *ssa.UnOp, *ssa.MakeInterface, *ssa.DebugRef:
						case *ssa.Store:
							if y.Addr == ssa.Value(ta) {
								okAll = false // *bufPtr = something else
							}
						default:
							okAll = false
						}
					}
				}
			}
		}
	}
	if !okAll || info == nil {
		return nil
	}
	return info
}

// poolAssertProved: x = pool.Get().(T) for a pool field proved to hold only T.
func poolAssertProved(p *core.Prog, x *ssa.TypeAssert) string {
	gc, ok := x.X.(*ssa.Call)
	if !ok || core.CalleeID(gc) != "sync.(*Pool).Get" || len(gc.Call.Args) != 1 {
		return ""
	}
	info := poolOf(p, gc.Call.Args[0])
	if info == nil || !types.Identical(info.elem, x.AssertedType) {
		return ""
	}
	return "the pool's New returns this type and only values taken from the same pool are put back"
}

// pooledBufferBound: a fixed-width binary.* accessor applied to the slice behind a pointer taken
// from such a pool: the slice has the constant length New gave it.
func pooledBufferBound(p *core.Prog, s core.BoundsSite) string {
	call, ok := s.Node.(*ast.CallExpr)
	if !ok || s.Fn == nil {
		return ""
	}
	need := int64(0)
	sel, ok := ast.Unparen(call.Fun).(*ast.SelectorExpr)
	if !ok {
		return ""
	}
	switch {
	case strings.HasSuffix(sel.Sel.Name, "Uint64"):
		need = 8
	case strings.HasSuffix(sel.Sel.Name, "Uint32"):
		need = 4
	case strings.HasSuffix(sel.Sel.Name, "Uint16"):
		need = 2
	default:
		return ""
	}
	for _, b := range s.Fn.Blocks {
		for _, in := range b.Instrs {
			c, ok := in.(*ssa.Call)
			if !ok || (c.Pos() != call.Lparen && c.Pos() != call.Pos()) || !strings.Contains(core.CalleeID(c), "encoding/binary.") || len(c.Call.Args) < 2 {
				continue
			}
			buf := c.Call.Args[1]
			if sl, isSl := buf.(*ssa.Slice); isSl && sl.Low == nil && sl.High == nil {
				buf = sl.X
			}
			ld, isLd := buf.(*ssa.UnOp)
			if !isLd || ld.Op != token.MUL {
				continue
			}
			ta, isTa := ld.X.(*ssa.TypeAssert)
			if !isTa {
				continue
			}
			gc, isC := ta.X.(*ssa.Call)
			if !isC || core.CalleeID(gc) != "sync.(*Pool).Get" {
				continue
			}
			if info := poolOf(p, gc.Call.Args[0]); info != nil && info.n >= need {
				return "the buffer is the slice behind a pointer from a pool whose New makes it " + trimInt(info.n) + " bytes long and which only gets its own buffers back"
			}
		}
	}
	return ""
}

func trimInt(n int64) string {
	return strings.TrimSpace(strings.TrimLeft(strings.Replace(" "+itoa(n), " ", "", 1), " "))
}

func itoa(n int64) string {
	if n == 0 {
		return "0"
	}
	neg := n < 0
	if neg {
		n = -n
	}
	var d []byte
	for n > 0 {
		d = append([]byte{byte('0' + n%10)}, d...)
		n /= 10
	}
	if neg {
		return "-" + string(d)
	}
	return string(d)
}
