#!/bin/bash
# usage: run.sh <Cxx> <quick|thorough>
# Analyses /repo's current working tree (no snapshot, nothing executed from /repo).
cd "$(dirname "$0")"
. ./env.sh
PROP="$1"; TIER="${2:-quick}"
if [ ! -x bin/verifchk ] || [ -n "$(find checker -newer bin/verifchk -name '*.go' -print -quit 2>/dev/null)" ]; then
  mkdir -p bin
  (cd checker && go build -o ../bin/verifchk .) || { echo "cannot build checker"; exit 2; }
fi
if [ "$TIER" = thorough ]; then
  # checker self-test for this property (tests the checker, not /repo; recorded in the evidence, never changes the exit status)
  mkdir -p selftest; python3 tools/selftest.py prop "$PROP" > "selftest/log-$PROP.txt" 2>&1 || true
fi
./bin/verifchk -prop "$PROP" -tier "$TIER" -repo "${VERIF_REPO:-/repo}" -verif "$(pwd)"
rc=$?
if [ $rc -ne 0 ] && [ $rc -ne 1 ]; then
  # the analyser itself died (runtime fatal error, out of memory, killed): nothing was decided.
  # Like an analyser panic this fails closed, in the contract's form.
  mkdir -p evidence
  printf '{"property":"%s","analyser_exit":%d,"violations":[{"rule":"analyser","construct":"crash","detail":"the checker process ended with status %d before reaching a verdict (fails closed)"}]}\n' "$PROP" $rc $rc > "evidence/$PROP.violations.json"
  echo "violation: $PROP.analyser crash @-: the checker process ended with status $rc before reaching a verdict (fails closed)"
  echo "VIOLATION property=$PROP replay=$(pwd)/evidence/$PROP.violations.json"
  exit 1
fi
exit $rc
