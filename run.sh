#!/bin/bash
# usage: run.sh <Cxx> <quick|thorough>
# Analyses /repo's current working tree (no snapshot, nothing executed from /repo).
cd "$(dirname "$0")"
. ./env.sh
PROP="$1"; TIER="${2:-quick}"
if [ ! -x bin/verifchk ] || [ -n "$(find checker -newer bin/verifchk -name '*.go' -print -quit 2>/dev/null)" ]; then
  mkdir -p bin
  (cd checker && go build -o ../bin/verifchk .) || { echo "cannot build checker"; exit 2; }
fi
if [ "$TIER" = thorough ]; then
  # checker self-test for this property (tests the checker, not /repo; recorded in the evidence, never changes the exit status)
  mkdir -p selftest; python3 tools/selftest.py prop "$PROP" > "selftest/log-$PROP.txt" 2>&1 || true
fi
exec ./bin/verifchk -prop "$PROP" -tier "$TIER" -repo "${VERIF_REPO:-/repo}" -verif "$(pwd)"
