#!/bin/bash
# Builds the checker from files on disk only (offline) and warms the Go build cache for /repo.
set -e
cd "$(dirname "$0")"
. ./env.sh
mkdir -p bin evidence
cp /repo/go.sum checker/go.sum 2>/dev/null || true
(cd checker && go build -o ../bin/verifchk .)
# warm the build cache, including the bounds-check report build C01 imports (cached builds replay their diagnostics)
(cd /repo && go build ./... >/dev/null 2>&1 || true)
(cd /repo && go build -gcflags='github.com/zen-eth/shisui/...=-d=ssa/check_bce/debug=1' ./... >/dev/null 2>&1 || true)
echo "setup ok: $(./bin/verifchk -version 2>/dev/null || echo built)"
