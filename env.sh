# sourced by run.sh / setup.sh: the Go environment that builds offline in this sandbox
TC=/root/go/pkg/mod/golang.org/toolchain@v0.0.1-go1.24.2.linux-amd64/bin
if [ -x "$TC/go" ]; then export PATH="$TC:$PATH"; fi
export GOTOOLCHAIN=local GOFLAGS=-mod=mod GOPROXY=off GOSUMDB=off CGO_ENABLED=1
unset GOWORK
